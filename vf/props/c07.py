"""C07 — sort and repair tools reorder without changing content; the result loads."""
from hypothesis import strategies as st

from .. import gen, model
from ..core import SubCheck
from ..gen import F
from . import _c07_util as U

META = dict(
    level="exploration",
    rule="A valid tree sequence spec (vf/gen.py ts_spec, valid by construction, metadata on every row) "
    "is turned into a 'logically consistent but unsorted' collection inside the strategy: Hypothesis "
    "draws row permutations of edges, sites, mutations, migrations, individuals and populations "
    "(every reference rewritten, nothing else), duplicate site positions (a site's mutations split "
    "over two rows), erased mutation parents/times, and the edge_start/site_start/mutation_start "
    "arguments. Oracles: a pure-python model of the documented sort keys (exact expected tables), "
    "byte snapshots of the tables that must not change, the positional model vf/model.py (parent_at, "
    "allele_at, mutation_parents) evaluated on the ORIGINAL unpermuted spec for trees/genotypes of "
    "the repaired collection, and permutation-invariance of canonicalise().",
    assumptions=[
        "reference model vf/model.py and the sort-key model in vf/props/_c07_util.py (written from "
        "the docstrings of TableCollection.sort/canonicalise and docs/data-model.md)",
        "size bounds: <=8 nodes, <=4 elementary intervals, <=4 sites (+ duplicates), <=6 mutations per site",
        "migration rows with identical full sort key are not generated (their order is undefined); "
        "mutation times are all-known or all-unknown per site",
        "within one site, mutations that sort() cannot order (unknown or equal times) keep their "
        "parent-first relative order in the repair pipeline (sort() documents that it does not "
        "reorder them); the sort-order sub-check permutes them freely",
        "canonicalise(): collections without migrations (documented as unsupported by subset) and "
        "without duplicate site positions",
    ],
    technique="property-based testing (Hypothesis) against a table-level model of the documented "
    "orders and the positional tree/genotype model",
    engines=["hypothesis-runner"],
)

PROV = [["2020-01-01T00:00:00", '{"x": 1}']]


# ------------------------------------------------------------------ strategy pieces
def draw_dups(draw, spec, p=3):
    """[[site, k, ancestral_alt, metadata_alt]]: site gets a duplicate row (same position) that
    receives the mutations of the site from the k-th on (k may equal their number: unreferenced)."""
    dups = []
    for s in range(len(spec["sites"])):
        if draw(st.integers(0, p - 1)) == 0:
            nmut = sum(1 for m in spec["mutations"] if m[0] == s)
            dups.append([s, draw(st.integers(0, nmut)), draw(st.sampled_from(["A", "C", "G", "T", "", "xx"])),
                         draw(st.sampled_from(["", "dup", "\x00"]))])
    return dups


def apply_dups(spec, dups):
    """Split sites; mutation parents that would cross the two rows are erased (-1)."""
    out = dict(spec)
    out["sites"] = [list(s) for s in spec["sites"]]
    out["mutations"] = [list(m) for m in spec["mutations"]]
    for s, k, anc, md in dups:
        new = len(out["sites"])
        out["sites"].append([spec["sites"][s][0], anc, md])
        rows = [j for j, m in enumerate(spec["mutations"]) if m[0] == s]
        for j in rows[k:]:
            out["mutations"][j][0] = new
    for m in out["mutations"]:
        if m[3] >= 0 and out["mutations"][m[3]][0] != m[0]:
            m[3] = -1
    return out


add_migrations = U.add_migrations


def strip_edge_md(spec):
    spec["edges"] = [e[:4] + [""] for e in spec["edges"]]


def common_labels(ctx, spec, P, dups):
    nid = 0
    for k, name in (("e", "perm_edges"), ("s", "perm_sites"), ("m", "perm_mutations"),
                    ("g", "perm_migrations"), ("i", "perm_individuals"), ("p", "perm_populations")):
        p = P.get(k)
        if p and p != U.ident(len(p)):
            ctx.label(name)
            nid += 1
    ctx.label("dup_site", bool(dups))
    ctx.label("dup_site_with_mutations", any(
        0 < sum(1 for m in spec["mutations"] if m[0] == d[0]) - d[1] for d in dups))
    ctx.label("edge_metadata", any(e[4] for e in spec["edges"]))
    ctx.label("migrations", bool(spec["migrations"]))
    ctx.label("known_mut_times", any(m[4] is not None for m in spec["mutations"]))
    ctx.label("multi_mut_site", len({m[0] for m in spec["mutations"]}) < len(spec["mutations"]))
    pt = {}
    for e in spec["edges"]:
        pt.setdefault(F(spec["nodes"][e[2]][1]), set()).add(e[2])
    eqt = any(len(v) > 1 for v in pt.values())
    ctx.label("equal_parent_times", eqt)
    return nid, eqt


# ================================================================== C07.sort_order
@st.composite
def sort_case(draw):
    spec = draw(gen.ts_spec(min_nodes=2, max_nodes=8, max_intervals=4, max_sites=4, max_muts_per_site=4,
                            mut_times=draw(st.sampled_from([None, "known"]))))
    add_migrations(draw, spec)
    U.uniq_migrations(spec)
    if draw(st.integers(0, 5)) == 0:
        strip_edge_md(spec)
    dups = draw_dups(draw, spec)
    ns, nm, ne = len(spec["sites"]) + len(dups), len(spec["mutations"]), len(spec["edges"])
    unk = sorted(draw(st.sets(st.integers(0, len(spec["sites"]) - 1)))) if spec["sites"] and draw(
        st.booleans()) else []
    P = dict(e=U.draw_perm(draw, st, ne), s=U.draw_perm(draw, st, ns), m=U.draw_perm(draw, st, nm),
             g=U.draw_perm(draw, st, len(spec["migrations"])))
    es = draw(st.sampled_from(["zero", "any", "any", "len", "over"]))
    edge_start = dict(zero=0, len=ne, over=ne + 1 + draw(st.integers(0, 2))).get(es)
    if edge_start is None:
        edge_start = draw(st.integers(0, ne))
    sm = draw(st.sampled_from(["sort", "sort", "sort", "skip", "skip", "bad"]))
    if sm == "sort":
        starts = [0, 0]
    elif sm == "skip":
        starts = [ns, nm]
    else:
        starts = [draw(st.integers(0, ns + 1)), draw(st.integers(0, nm + 1))]
    return dict(spec=spec, dups=dups, unknown_sites=unk, perms=P, edge_start=edge_start, starts=starts,
                prov=draw(st.booleans()))


def prepare_sort(case):
    spec = dict(case["spec"])
    unk = set(case["unknown_sites"])
    spec["mutations"] = [m[:4] + [None if m[0] in unk else m[4]] + m[5:] for m in spec["mutations"]]
    spec = U.permuted(apply_dups(spec, case["dups"]), case["perms"])
    if case["prov"]:
        spec["provenances"] = PROV
    return spec


def run_sort(case, ctx):
    import _tskit
    import tskit

    pspec = prepare_sort(case)
    ne, ns, nm = len(pspec["edges"]), len(pspec["sites"]), len(pspec["mutations"])
    k, (ss, ms) = case["edge_start"], case["starts"]
    nid, eqt = common_labels(ctx, case["spec"], case["perms"], case["dups"])
    ctx.label("edge_start>0", 0 < k <= ne)
    ctx.label("edge_start>0_with_metadata", 0 < k <= ne and any(e[4] for e in pspec["edges"][:k]))
    ctx.label("edge_start=len", k == ne and ne > 0)
    skip = ss == ns and ms == nm
    bad = (not skip and (ss != 0 or ms != 0)) or k > ne
    ctx.label("skip_sites", skip and not bad and ns > 0)
    ctx.label("bad_start", bad)
    ctx.label("mixed_known_unknown_sites", len({m[4] is None for m in pspec["mutations"]}) == 2)
    ctx.nt(not bad and (nid >= 2 or 0 < k <= ne or bool(case["dups"]) or eqt))

    t = gen.build_tables(pspec, tskit, index=False)
    before = gen.spec_from_tables(t, tskit)
    s0 = U.snap(t)
    if bad:
        try:
            t.sort(k, site_start=ss, mutation_start=ms)
        except _tskit.LibraryError:
            return
        ctx.fail("sort.bad_start", f"sort(edge_start={k}, site_start={ss}, mutation_start={ms}) accepted "
                 f"with {ne} edges, {ns} sites, {nm} mutations")
    t.sort(k, site_start=ss, mutation_start=ms)
    s1 = U.snap(t)
    U.same(ctx, s0, s1, ["nodes", "individuals", "populations", "provenances", "top"], "sort.untouched")
    if skip:
        U.same(ctx, s0, s1, ["sites", "mutations"], "sort.skipped_sites_mutations")
    after = gen.spec_from_tables(t, tskit)
    exp = U.model_sort(before, edge_start=k, skip_sites=skip)
    U.eq_rows(ctx, after, exp, ["edges", "migrations", "sites", "mutations"], "sort.order")
    # byte level (ragged offsets etc.): identical to a collection built row by row in that order
    exp["provenances"] = pspec.get("provenances", [])
    exp_t = gen.build_tables(exp, tskit, index=False)
    U.same(ctx, U.snap(exp_t), s1, ["edges", "migrations", "sites", "mutations"], "sort.bytes")
    # idempotence
    t.sort(k, site_start=len(t.sites) if skip else 0, mutation_start=len(t.mutations) if skip else 0)
    U.same(ctx, s1, U.snap(t), U.TABLES + ("top",), "sort.idempotent")
    if not skip:
        t.sort()
        if k == 0:
            U.same(ctx, s1, U.snap(t), U.TABLES + ("top",), "sort.idempotent_full")
        else:
            # a full sort afterwards equals the full sort of the input
            exp2 = U.model_sort(before)
            U.eq_rows(ctx, gen.spec_from_tables(t, tskit), exp2, ["edges", "migrations", "sites", "mutations"],
                      "sort.full_after_partial")


# ================================================================== C07.repair_pipeline
@st.composite
def pipeline_case(draw):
    spec = draw(gen.ts_spec(min_nodes=2, max_nodes=8, max_intervals=4, max_sites=4, max_muts_per_site=5,
                            mut_times=draw(st.sampled_from([None, "known"]))))
    add_migrations(draw, spec)
    U.uniq_migrations(spec)
    if draw(st.integers(0, 7)) == 0:
        strip_edge_md(spec)
    dups = draw_dups(draw, spec)
    ns, nm, ne = len(spec["sites"]) + len(dups), len(spec["mutations"]), len(spec["edges"])
    P = dict(e=U.draw_perm(draw, st, ne), s=U.draw_perm(draw, st, ns), m=U.draw_perm(draw, st, nm),
             g=U.draw_perm(draw, st, len(spec["migrations"])),
             i=U.draw_perm(draw, st, len(spec["individuals"]), 2),
             p=U.draw_perm(draw, st, len(spec["populations"]), 2))
    return dict(spec=spec, dups=dups, perms=P,
                edge_start=draw(st.one_of(st.just(0), st.integers(0, max(ne, 1)))),
                erase_parents=draw(st.sampled_from(["keep", "null", "null", "garbage"])),
                garbage=draw(st.lists(st.integers(-1, nm + 1), min_size=nm, max_size=nm)),
                erase_times=draw(st.booleans()), resort=draw(st.booleans()),
                # history: the collection carries an index that no longer matches its edge rows (built before the
                # rows were rearranged in place); afterwards build_index() is called only if has_index() is False
                stale_index=draw(st.sampled_from([None, None, "reversed", "rotated", "identity"])),
                edges_in_order=draw(st.integers(0, 3)) == 0)


def prepare_pipeline(case):
    """-> (permuted unsorted spec, edge_start, expected final spec = the original)."""
    orig = case["spec"]
    erase_t = case["erase_times"]
    base = apply_dups(orig, case["dups"])
    if erase_t:
        for m in base["mutations"]:
            m[4] = None
    mode = case["erase_parents"]
    if mode != "keep":
        for j, m in enumerate(base["mutations"]):
            m[3] = -1
    P = dict(case["perms"])
    # (1) the row with the original ancestral state / leading mutations stays first of its position
    ps = list(P["s"])
    for idx, d in enumerate(case["dups"]):
        a, b = ps.index(d[0]), ps.index(len(orig["sites"]) + idx)
        if b < a:
            ps[a], ps[b] = ps[b], ps[a]
    P["s"] = ps
    # (2) mutations that sort() cannot order keep their relative (parent-first) order
    pm = list(P["m"])
    cls = {}
    for pos, o in enumerate(pm):
        m = orig["mutations"][o]
        key = (m[0], None if (erase_t or m[4] is None) else F(m[4]))
        cls.setdefault(key, []).append(pos)
    for key, poss in cls.items():
        for pos, o in zip(poss, sorted(pm[q] for q in poss)):
            pm[pos] = o
    P["m"] = pm
    # (3) rows before edge_start are the first rows of the documented order
    ne = len(orig["edges"])
    k = case["edge_start"] % (ne + 1)
    if case.get("edges_in_order") and case.get("stale_index"):
        k = ne
    order = sorted(range(ne), key=lambda j: U.edge_key(orig, orig["edges"][j]))
    head = order[:k]
    hs = set(head)
    P["e"] = head + [o for o in P["e"] if o not in hs]
    pspec = U.permuted(base, P)
    if mode == "garbage":
        # sort() needs referentially valid parents: garbage = any *other* row of the same site
        nm = len(pspec["mutations"])
        for j, m in enumerate(pspec["mutations"]):
            g = case["garbage"][j] if j < len(case["garbage"]) else -1
            if 0 <= g < nm and g != j and pspec["mutations"][g][0] == m[0] and m[4] is None:
                m[3] = g
    return pspec, k, P


def model_dedup(spec):
    out = dict(spec)
    smap, sites = [], []
    for j, s in enumerate(spec["sites"]):
        if j == 0 or F(s[0]) != F(spec["sites"][j - 1][0]):
            sites.append(list(s))
        smap.append(len(sites) - 1)
    out["sites"] = sites
    out["mutations"] = [[smap[m[0]]] + list(m[1:]) for m in spec["mutations"]]
    return out


def run_pipeline(case, ctx):
    import tskit

    orig = case["spec"]
    pspec, k, P = prepare_pipeline(case)
    nid, eqt = common_labels(ctx, orig, P, case["dups"])
    ctx.label("edge_start>0", k > 0)
    ctx.label("edge_start>0_with_metadata", k > 0 and any(e[4] for e in pspec["edges"][:k]))
    ctx.label("erase_parents", case["erase_parents"] != "keep")
    ctx.label("erase_times", case["erase_times"])
    ctx.label("garbage_parents", case["erase_parents"] == "garbage" and any(
        m[3] >= 0 for m in pspec["mutations"]))
    ctx.nt(nid >= 2 or k > 0 or bool(case["dups"]) or eqt)
    n = len(orig["nodes"])

    t = gen.build_tables(pspec, tskit, index=False)
    stale = case.get("stale_index")
    ne = len(pspec["edges"])
    if stale and ne >= 2:
        import numpy as np

        ins = list(range(ne))
        ins = ins[::-1] if stale == "reversed" else (ins[1:] + ins[:1] if stale == "rotated" else ins)
        t.indexes = tskit.TableCollectionIndexes(np.array(ins, dtype=np.int32), np.array(ins[::-1], dtype=np.int32))
        ctx.label("stale_index")
        ctx.label("stale_index_edges_in_order", k == ne or list(P["e"]) == sorted(
            range(ne), key=lambda j: U.edge_key(orig, orig["edges"][j])))
    guard = bool(stale)
    s_in = U.snap(t)
    t.sort(edge_start=k)
    # ---- deduplicate_sites: first row of each position survives, mutation.site renumbered
    b = gen.spec_from_tables(t, tskit)
    s0 = U.snap(t)
    t.deduplicate_sites()
    a = gen.spec_from_tables(t, tskit)
    U.eq_rows(ctx, a, model_dedup(b), ["sites", "mutations", "edges", "migrations"], "deduplicate_sites")
    U.same(ctx, s0, U.snap(t), ["nodes", "edges", "migrations", "individuals", "populations", "provenances",
                                "top"], "deduplicate_sites.untouched")
    if case["dups"] or case["resort"]:
        # documented: deduplicate_sites does not re-sort; edges are already in order
        t.sort(edge_start=len(t.edges))
    if not guard or not t.has_index():
        t.build_index()
    b = gen.spec_from_tables(t, tskit)
    s0 = U.snap(t)
    t.compute_mutation_parents()
    a = gen.spec_from_tables(t, tskit)
    mp = model.mutation_parents(a)
    ctx.eq([m[3] for m in a["mutations"]], mp, "compute_mutation_parents (pipeline)")
    for m in a["mutations"]:
        m[3] = -1
    for m in b["mutations"]:
        m[3] = -1
    U.eq_rows(ctx, a, b, ["sites", "mutations", "edges", "migrations"], "compute_mutation_parents.other_columns")
    U.same(ctx, s0, U.snap(t), ["nodes", "edges", "migrations", "sites", "individuals", "populations",
                                "provenances", "top"], "compute_mutation_parents.untouched")
    if case["erase_parents"] == "keep" and not case["dups"]:
        U.same(ctx, s0, U.snap(t), ["mutations"], "compute_mutation_parents.reproduces_valid_parents")
    if case["erase_times"]:
        b = gen.spec_from_tables(t, tskit)
        s0 = U.snap(t)
        t.compute_mutation_times()
        a = gen.spec_from_tables(t, tskit)
        check_mutation_times(ctx, b, a)
        U.same(ctx, s0, U.snap(t), ["nodes", "edges", "migrations", "sites", "individuals", "populations",
                                    "provenances", "top"], "compute_mutation_times.untouched")
        if not t.has_index():
            t.build_index()
    # ---- the repaired collection loads and is the original
    ts = t.tree_sequence()
    fin = gen.spec_from_tables(t, tskit)
    U.same(ctx, s_in, U.snap(t), ["nodes", "individuals", "populations", "provenances", "top"],
           "pipeline.untouched")
    perm_ref = U.permuted(orig, dict(i=P["i"], p=P["p"]))  # node refs follow individuals/populations
    U.eq_rows(ctx, fin, U.model_sort(perm_ref), ["edges", "migrations", "sites"], "pipeline.rows")
    U.same_trees(ctx, model, fin, orig, "pipeline.trees")
    U.ts_matches(ctx, model, ts, orig, "pipeline.ts")
    ctx.eq(U.model_genotypes(model, fin), U.model_genotypes(model, orig), "pipeline.genotypes(all nodes)")
    ctx.check(len(fin["mutations"]) == len(orig["mutations"]), "pipeline.mutations", "row count changed")
    for sid in range(len(orig["sites"])):
        for u in range(n):
            g = [[m[2], m[5]] + ([] if case["erase_times"] else [m[4]])
                 for m in fin["mutations"] if m[0] == sid and m[1] == u]
            e = [[m[2], m[5]] + ([] if case["erase_times"] else [m[4]])
                 for m in orig["mutations"] if m[0] == sid and m[1] == u]
            ctx.check(g == e, "pipeline.mutations", lambda: f"site {sid} node {u}: {g} expected {e}")
    if not case["erase_times"]:
        om = [m[:3] + m[4:] for m in orig["mutations"]]
        fm = [m[:3] + m[4:] for m in fin["mutations"]]
        ctx.eq(fm, om, "pipeline.mutation_rows")
        ctx.eq([m[3] for m in fin["mutations"]], [m[3] for m in orig["mutations"]], "pipeline.mutation_parents")
    else:
        ctx.eq([m[3] for m in fin["mutations"]], model.mutation_parents(fin), "pipeline.mutation_parents")


def check_mutation_times(ctx, b, a):
    """documented: one mutation on an edge -> mid-point; several -> evenly spread (oldest first in
    table order); above a root -> time of the root node."""
    W = "compute_mutation_times"
    ctx.check(len(a["mutations"]) == len(b["mutations"]), W, "row count")
    for sid in range(len(b["sites"])):
        par = model.parent_at(b, F(b["sites"][sid][0]))
        nodes = sorted({m[1] for m in b["mutations"] if m[0] == sid})
        for u in nodes:
            rows_b = [m for m in b["mutations"] if m[0] == sid and m[1] == u]
            rows_a = [m for m in a["mutations"] if m[0] == sid and m[1] == u]
            ctx.check([[m[2], m[5]] for m in rows_a] == [[m[2], m[5]] for m in rows_b], W,
                      f"site {sid} node {u}: rows changed")
            d = len(rows_b)
            tu = model.time(b, u)
            exp = []
            for q in range(1, d + 1):
                if par[u] < 0:
                    exp.append(tu)
                else:
                    pt = model.time(b, par[u])
                    exp.append(pt - (pt - tu) * q / (d + 1))
            ctx.check(all(m[4] is not None for m in rows_a), W, "unknown time left")
            ctx.close([F(m[4]) for m in rows_a], exp, W + f" site {sid} node {u}")
    # order: by site, then non-increasing time, parents first
    last = None
    for j, m in enumerate(a["mutations"]):
        if last is not None and last[0] == m[0]:
            ctx.check(F(last[4]) >= F(m[4]), W, f"row {j}: times increase within site {m[0]}")
        ctx.check(last is None or last[0] <= m[0], W, "sites out of order")
        ctx.check(m[3] < j, W, f"row {j}: parent {m[3]} not before child")
        last = m
    ctx.eq([m[3] for m in a["mutations"]], model.mutation_parents(a), W + ".parents after re-sort")


# ================================================================== C07.deep_pedigree
def enum_pedigree(tier, seed):
    for G in ([20, 34, 40, 70] if tier == "quick" else [20, 31, 32, 33, 34, 40, 63, 64, 65, 70, 100]):
        for s1, s2 in ((0, 1), (1, 2), (3, 0)):
            yield dict(G=G, s1=s1, s2=s2)


def run_pedigree(case, ctx):
    """canonicalise() of two collections that differ only in the row order of the individual table, on a fully
    inbred pedigree whose descendant-path counts exceed 32 (and 64) bits: the results must be identical."""
    import tskit

    from ._shapes import deep_pedigree_tables

    a = deep_pedigree_tables(tskit, case["G"], case["s1"])
    b = deep_pedigree_tables(tskit, case["G"], case["s2"])
    ctx.nt(True)
    ctx.check(not a.individuals.equals(b.individuals), "harness", "the two individual orders are the same")
    for remove in (True, False):
        ca, cb = a.copy(), b.copy()
        ca.canonicalise(remove_unreferenced=remove)
        cb.canonicalise(remove_unreferenced=remove)
        ca.provenances.clear()
        cb.provenances.clear()
        ctx.check(ca.equals(cb), "canonicalise.deep_pedigree",
                  f"G={case['G']}: canonicalise(remove_unreferenced={remove}) of two individual orders differs")
        ca.tree_sequence()


# ================================================================== C07.large_stack
def enum_stack(tier, seed):
    for d in ([255, 256, 300] if tier == "quick" else [255, 256, 257, 300, 1000, 2000]):
        for where in ("leaf", "root", "two_nodes"):
            yield dict(d=d, where=where)


def run_stack(case, ctx):
    """Hundreds of mutations stacked on one node at one site (per-node counters beyond 255): parents and
    times computed by the repair tools against the same oracles as C07.repair_pipeline."""
    import tskit

    d = case["d"]
    node = dict(leaf=0, root=2, two_nodes=0)[case["where"]]
    muts = []
    for q in range(d):
        u = node if case["where"] != "two_nodes" or q % 2 == 0 else 1
        muts.append([0, u, "ACGT"[q % 4], -1, None, ""])
    if case["where"] == "two_nodes":
        muts.sort(key=lambda m: m[1])
    b = dict(L=1.0, nodes=[[1, 0.0, -1, -1, ""], [1, 0.0, -1, -1, ""], [0, 1.0, -1, -1, ""]],
             edges=[[0.0, 1.0, 2, 0, ""], [0.0, 1.0, 2, 1, ""]], sites=[[0.5, "A", ""]], mutations=muts,
             individuals=[], populations=[], migrations=[])
    ctx.nt(True)
    t = gen.build_tables(b, tskit)
    t.compute_mutation_parents()
    exp_par = model.mutation_parents(b)
    ctx.eq([int(x) for x in t.mutations.parent], exp_par, "compute_mutation_parents (stack)")
    for m, p_ in zip(b["mutations"], exp_par):
        m[3] = p_
    t.compute_mutation_times()
    t.sort()
    a = gen.spec_from_tables(t, tskit)
    check_mutation_times(ctx, b, a)
    ts = t.tree_sequence()
    ctx.check(ts.num_mutations == d, "large_stack", "tree sequence lost mutations")


# ================================================================== C07.mutation_parents
@st.composite
def mutpar_case(draw):
    spec = draw(gen.ts_spec(max_nodes=8, max_intervals=3, max_sites=3, max_muts_per_site=6,
                            migrations=False, individuals=False, populations=False))
    nm = len(spec["mutations"])
    return dict(spec=spec, perm=U.draw_perm(draw, st, nm, 3),
                garbage=draw(st.lists(st.integers(-1, nm + 2), min_size=nm, max_size=nm)))


def run_mutpar(case, ctx):
    import _tskit
    import tskit

    orig = case["spec"]
    # permute rows *within* sites (a collection that still passes every other requirement):
    # stable by site, and by decreasing time where times are known
    pm = sorted(case["perm"], key=lambda o: (orig["mutations"][o][0],
                                             0.0 if orig["mutations"][o][4] is None
                                             else -F(orig["mutations"][o][4])))
    spec = U.permuted(orig, dict(m=pm))
    mp = model.mutation_parents(spec)
    sorted_ok = all(p < j for j, p in enumerate(mp))
    per = {}
    for m in spec["mutations"]:
        per[m[0]] = per.get(m[0], 0) + 1
    ctx.label("multi_mut_site", any(v > 1 for v in per.values()))
    ctx.label("has_parent", any(p >= 0 for p in mp))
    ctx.label("parent_on_other_node", any(p >= 0 and spec["mutations"][p][1] != spec["mutations"][j][1]
                                          for j, p in enumerate(mp)))
    ctx.label("parent_on_same_node", any(p >= 0 and spec["mutations"][p][1] == spec["mutations"][j][1]
                                         for j, p in enumerate(mp)))
    ctx.label("permuted_within_site", pm != U.ident(len(pm)))
    ctx.label("parent_after_child", not sorted_ok)
    ctx.nt(any(p >= 0 for p in mp))
    import numpy as np

    for m in spec["mutations"]:
        m[3] = -1
    t = gen.build_tables(spec, tskit)
    t.mutations.parent = np.array(case["garbage"], dtype=np.int32)
    s0 = U.snap(t)
    if not sorted_ok:
        try:
            t.compute_mutation_parents()
        except _tskit.LibraryError:
            return
        ctx.fail("compute_mutation_parents.unsorted", "a mutation listed before its parent (on another "
                 f"node) was accepted; parents {list(t.mutations.parent)} model {mp}")
    t.compute_mutation_parents()
    ctx.eq(list(map(int, t.mutations.parent)), mp, "compute_mutation_parents")
    t2 = gen.build_tables(spec, tskit)
    t2.mutations.parent = t.mutations.parent
    U.same(ctx, U.snap(t2), U.snap(t), U.TABLES + ("top",), "compute_mutation_parents.other_columns")
    U.same(ctx, s0, U.snap(t), [x for x in U.TABLES if x != "mutations"] + ["top"],
           "compute_mutation_parents.untouched")
    if pm == U.ident(len(pm)):
        ctx.eq(mp, [m[3] for m in orig["mutations"]], "model self-check: generator parents")
        t.tree_sequence()


# ================================================================== C07.canonicalise
def tag_rows(spec):
    spec["individuals"] = [[fl, loc, par, f"I{j}|" + md] for j, (fl, loc, par, md) in enumerate(spec["individuals"])]
    spec["populations"] = [[f"P{j}|" + md[0]] for j, md in enumerate(spec["populations"])]


def make_acyclic(spec, rank):
    inds = []
    for j, (fl, loc, par, md) in enumerate(spec["individuals"]):
        inds.append([fl, loc, [q for q in par if q < 0 or rank[q] < rank[j]], md])
    spec["individuals"] = inds


def has_cycle(parents, keep):
    """parents: list of parent-id lists; only individuals in `keep` count."""
    state = {}

    def visit(j):
        if state.get(j) == 1:
            return True
        if state.get(j) == 2:
            return False
        state[j] = 1
        for q in parents[j]:
            if q >= 0 and q in keep and visit(q):
                return True
        state[j] = 2
        return False

    return any(visit(j) for j in sorted(keep))


@st.composite
def canon_case(draw):
    spec = draw(gen.ts_spec(max_nodes=8, max_intervals=3, max_sites=4, max_muts_per_site=5, migrations=False))
    tag_rows(spec)
    ni = len(spec["individuals"])
    acyclic = draw(st.integers(0, 3)) > 0
    if acyclic:
        make_acyclic(spec, list(draw(st.permutations(U.ident(ni)))))

    def perms():
        return dict(e=U.draw_perm(draw, st, len(spec["edges"])), s=U.draw_perm(draw, st, len(spec["sites"])),
                    m=U.draw_perm(draw, st, len(spec["mutations"])),
                    i=U.draw_perm(draw, st, ni, 3), p=U.draw_perm(draw, st, len(spec["populations"]), 3))

    return dict(spec=spec, A=perms(), B=perms(), remove=draw(st.sampled_from([True, True, False, None])))


def model_canonical(spec, remove, input_spec):
    """Expected canonical tables except individuals (whose order key is only partly documented).
    `input_spec` is the permuted input: unreferenced populations keep *its* order."""
    n = len(spec["nodes"])
    out = dict(spec)
    out["edges"] = sorted((list(e) for e in spec["edges"]), key=lambda r: U.edge_key(spec, r))
    nm = len(spec["mutations"])
    ref_sites = {m[0] for m in spec["mutations"]}
    keep = [j for j in range(len(spec["sites"])) if not remove or j in ref_sites]
    smap = {o: k for k, o in enumerate(keep)}
    out["sites"] = [list(spec["sites"][j]) for j in keep]
    ndesc = [0] * nm
    for j in range(nm):
        p = spec["mutations"][j][3]
        while p >= 0:
            ndesc[p] += 1
            p = spec["mutations"][p][3]

    def key(j):
        m = spec["mutations"][j]
        return (smap[m[0]], 0.0 if m[4] is None else -F(m[4]), -ndesc[j], m[1], j)

    order = sorted(range(nm), key=key)
    mmap = U.inv(order)
    out["mutations"] = []
    for j in order:
        m = list(spec["mutations"][j])
        m[0] = smap[m[0]]
        m[3] = mmap[m[3]] if m[3] >= 0 else -1
        out["mutations"].append(m)
    # populations: by first referring node, then (keep) the unreferenced in input order
    first = []
    for u in range(n):
        p = spec["nodes"][u][2]
        if p >= 0 and spec["populations"][p][0] not in first:
            first.append(spec["populations"][p][0])
    if not remove:
        first += [md[0] for md in input_spec["populations"] if md[0] not in first]
    out["populations"] = [[md] for md in first]
    return out


def run_canon(case, ctx):
    import _tskit
    import tskit

    orig = case["spec"]
    remove = True if case["remove"] is None else case["remove"]
    n = len(orig["nodes"])
    ref_i = {nd[3] for nd in orig["nodes"] if nd[3] >= 0}
    ref_p = {nd[2] for nd in orig["nodes"] if nd[2] >= 0}
    ni, npop = len(orig["individuals"]), len(orig["populations"])
    keep_i = ref_i if remove else set(range(ni))
    cyc = has_cycle([r[2] for r in orig["individuals"]], keep_i)
    unref = (len(ref_i) < ni) or (len(ref_p) < npop)
    ref_s = {m[0] for m in orig["mutations"]}
    nid, eqt = common_labels(ctx, orig, case["A"], [])
    ctx.label("remove_unreferenced", remove)
    ctx.label("individual_cycle", cyc)
    ctx.label("unreferenced_ind_or_pop", unref)
    ctx.label("unreferenced_site", len(ref_s) < len(orig["sites"]))
    ctx.label("individual_parents", any(any(q >= 0 for q in r[2]) for r in orig["individuals"]))
    ctx.label("A!=B", case["A"] != case["B"])
    ctx.nt(case["A"] != case["B"] and not cyc)

    res = []
    for P in (case["A"], case["B"]):
        pspec = U.permuted(orig, P)
        t = gen.build_tables(pspec, tskit, index=False)
        kw = {} if case["remove"] is None else dict(remove_unreferenced=case["remove"])
        if cyc:
            try:
                t.canonicalise(**kw)
            except _tskit.LibraryError:
                continue
            ctx.fail("canonicalise.cycle", "individual parent cycle accepted")
        t.canonicalise(**kw)
        res.append((pspec, t))
    if cyc:
        return
    for pspec, t in res:
        out = gen.spec_from_tables(t, tskit)
        exp = model_canonical(orig, remove, pspec)
        U.eq_rows(ctx, out, exp, ["edges", "sites", "mutations"], "canonicalise.order")
        ctx.eq(out["populations"], exp["populations"], "canonicalise.populations")
        # nodes: same order and content, references follow the rows
        ctx.check(len(out["nodes"]) == n, "canonicalise.nodes", "node count")
        tags = [r[3] for r in out["individuals"]]
        ctx.check(len(set(tags)) == len(tags), "canonicalise.individuals", f"duplicated rows {tags}")
        exp_tags = {orig["individuals"][j][3] for j in keep_i}
        ctx.check(set(tags) == exp_tags, "canonicalise.individuals", f"kept {sorted(tags)} expected {sorted(exp_tags)}")
        otag = {r[3]: j for j, r in enumerate(orig["individuals"])}
        for k, r in enumerate(out["individuals"]):
            o = orig["individuals"][otag[r[3]]]
            ctx.check(r[0] == o[0] and r[1] == o[1], "canonicalise.individuals", f"row {k} flags/location")
            gp = [out["individuals"][q][3] if q >= 0 else None for q in r[2]]
            ep = [orig["individuals"][q][3] if q >= 0 else None for q in o[2] if q < 0 or q in keep_i]
            ctx.check(gp == ep, "canonicalise.individuals", f"row {k} parents {gp} expected {ep}")
            ctx.check(all(q < k for q in r[2]), "canonicalise.individuals",
                      f"row {k}: parent listed after child ({r[2]})")
        for u in range(n):
            g, e = out["nodes"][u], orig["nodes"][u]
            ctx.check(g[0] == e[0] and g[1] == e[1] and g[4] == e[4], "canonicalise.nodes", f"node {u} changed")
            gi = out["individuals"][g[3]][3] if g[3] >= 0 else None
            ei = orig["individuals"][e[3]][3] if e[3] >= 0 else None
            gp = out["populations"][g[2]][0] if g[2] >= 0 else None
            ep = orig["populations"][e[2]][0] if e[2] >= 0 else None
            ctx.check(gi == ei and gp == ep, "canonicalise.nodes",
                      f"node {u} refers to individual {gi} / population {gp}, expected {ei} / {ep}")
        # idempotent
        s1 = U.snap(t)
        t.canonicalise(**({} if case["remove"] is None else dict(remove_unreferenced=case["remove"])))
        U.same(ctx, s1, U.snap(t), U.TABLES + ("top",), "canonicalise.idempotent")
    (pa, ta), (pb, tb) = res
    if remove or not unref:
        U.same(ctx, U.snap(ta), U.snap(tb), U.TABLES + ("top",), "canonicalise.permutation_invariant")
    # loads, same trees and genotypes
    ta.build_index()
    ts = ta.tree_sequence()
    o2 = dict(orig)
    if remove:
        exp = model_canonical(orig, True, orig)
        o2["sites"], o2["mutations"] = exp["sites"], exp["mutations"]
    U.ts_matches(ctx, model, ts, o2, "canonicalise.ts")


# ================================================================== C07.sort_individuals
@st.composite
def sortind_case(draw):
    spec = draw(gen.ts_spec(max_nodes=6, max_intervals=2, max_sites=2, max_muts_per_site=2))
    extra = draw(st.integers(0, 4))
    for j in range(extra):  # more individuals -> deeper pedigrees
        ni = len(spec["individuals"])
        par = draw(st.lists(st.integers(-1, ni - 1), max_size=3)) if ni else []
        spec["individuals"].append([draw(st.sampled_from([0, 1, 1 << 16])),
                                    draw(st.lists(st.sampled_from([0.0, 1.5, -2.0]), max_size=2)), par,
                                    draw(st.sampled_from(["", "x", "\x00\xff"]))])
    tag_rows(spec)
    ni = len(spec["individuals"])
    if draw(st.integers(0, 2)) > 0:
        make_acyclic(spec, list(draw(st.permutations(U.ident(ni)))))
    return dict(spec=spec, perm=U.draw_perm(draw, st, ni, 5))


def run_sortind(case, ctx):
    import _tskit
    import tskit

    orig = case["spec"]
    spec = U.permuted(orig, dict(i=case["perm"]))
    ni = len(spec["individuals"])
    cyc = has_cycle([r[2] for r in spec["individuals"]], set(range(ni)))
    unsorted = any(q >= j for j, r in enumerate(spec["individuals"]) for q in r[2])
    ctx.label("cycle", cyc)
    ctx.label("unsorted_input", unsorted and not cyc)
    ctx.label("has_parents", any(q >= 0 for r in spec["individuals"] for q in r[2]))
    ctx.label("node_refs", any(nd[3] >= 0 for nd in spec["nodes"]))
    ctx.nt(unsorted and not cyc)
    t = gen.build_tables(spec, tskit)
    s0 = U.snap(t)
    if cyc:
        try:
            t.sort_individuals()
        except _tskit.LibraryError:
            return
        ctx.fail("sort_individuals.cycle", "individual parent cycle accepted")
    t.sort_individuals()
    out = gen.spec_from_tables(t, tskit)
    W = "sort_individuals"
    U.same(ctx, s0, U.snap(t), ["edges", "migrations", "sites", "mutations", "populations", "provenances",
                                "top"], W + ".untouched")
    tags = [r[3] for r in out["individuals"]]
    ctx.check(sorted(tags) == sorted(r[3] for r in spec["individuals"]), W, f"rows {tags}")
    itag = {r[3]: r for r in spec["individuals"]}
    for k, r in enumerate(out["individuals"]):
        o = itag[r[3]]
        ctx.check(r[0] == o[0] and r[1] == o[1], W, f"row {k} flags/location changed")
        gp = [out["individuals"][q][3] if q >= 0 else None for q in r[2]]
        ep = [spec["individuals"][q][3] if q >= 0 else None for q in o[2]]
        ctx.check(gp == ep, W, f"row {k} parents {gp} expected {ep}")
        ctx.check(all(q < k for q in r[2]), W, f"row {k}: parent not before child ({r[2]})")
    for u, (g, e) in enumerate(zip(out["nodes"], spec["nodes"])):
        ctx.check(g[:3] == e[:3] and g[4] == e[4], W, f"node {u} changed")
        gi = out["individuals"][g[3]][3] if g[3] >= 0 else None
        ei = spec["individuals"][e[3]][3] if e[3] >= 0 else None
        ctx.check(gi == ei, W, f"node {u} refers to {gi} expected {ei}")
    s1 = U.snap(t)
    t.sort_individuals()
    U.same(ctx, s1, U.snap(t), U.TABLES + ("top",), W + ".idempotent")
    t.tree_sequence()


# ================================================================== C07.squash
@st.composite
def squash_case(draw):
    spec = draw(gen.ts_spec(min_nodes=3, max_nodes=8, max_intervals=4, max_sites=0, migrations=False,
                            individuals=False, populations=False))
    with_md = draw(st.integers(0, 7)) == 0
    if not with_md:
        strip_edge_md(spec)
    edges = []
    for e in spec["edges"]:
        pieces = [e]
        for _ in range(draw(st.sampled_from([0, 0, 1, 2]))):
            q = pieces.pop(draw(st.integers(0, len(pieces) - 1)))
            l, r = F(q[0]), F(q[1])
            mid = l + (r - l) / 2
            if l < mid < r:
                pieces += [[l, mid] + q[2:], [mid, r] + q[2:]]
            else:
                pieces.append(q)
        if len(pieces) > 1 and draw(st.integers(0, 3)) == 0:  # a hole: the rest must not be merged over it
            pieces.pop(draw(st.integers(0, len(pieces) - 1)))
        edges += pieces
    spec["edges"] = edges
    return dict(spec=spec, perm=U.draw_perm(draw, st, len(edges)))


def run_squash(case, ctx):
    import _tskit
    import tskit

    orig = case["spec"]
    spec = U.permuted(orig, dict(e=case["perm"]))
    t = gen.build_tables(spec, tskit, index=False)
    runs = {}
    for e in orig["edges"]:
        runs.setdefault((e[2], e[3]), []).append([F(e[0]), F(e[1])])
    exp = []
    for (p, c) in sorted(runs):
        cur = None
        for l, r in sorted(runs[(p, c)]):
            if cur is not None and cur[1] == l:
                cur[1] = r
            else:
                cur = [l, r, p, c, ""]
                exp.append(cur)
    has_md = any(e[4] for e in orig["edges"])
    ctx.label("edge_metadata", has_md)
    ctx.label("adjacent_pieces", len(exp) < len(orig["edges"]))
    ctx.label("gap_between_pieces", any(len(v) > 1 for v in runs.values()) and len(exp) > len(runs))
    ctx.label("permuted", case["perm"] != U.ident(len(case["perm"])))
    ctx.nt(len(exp) < len(orig["edges"]) and not has_md)
    s0 = U.snap(t)
    if has_md:
        try:
            t.edges.squash()
        except _tskit.LibraryError:
            return
        ctx.fail("squash.metadata", "edges with non-empty metadata were squashed")
    t.edges.squash()
    out = gen.spec_from_tables(t, tskit)
    U.eq_rows(ctx, out, dict(orig, edges=exp), ["edges"], "squash.rows")
    U.same(ctx, s0, U.snap(t), [x for x in U.TABLES if x != "edges"] + ["top"], "squash.untouched")
    U.same_trees(ctx, model, out, orig, "squash.trees", breakpoints=False)
    exp_t = gen.build_tables(dict(orig, edges=exp), tskit, index=False)
    U.same(ctx, U.snap(exp_t), U.snap(t), ["edges"], "squash.bytes")
    t.sort()
    t.build_index()
    ts = t.tree_sequence()
    ctx.check(ts.num_edges == len(exp), "squash.loads", "edge count")


NT = ("not an error case and: rows of >=2 tables are permuted, or 0<edge_start<=len(edges), or a duplicate "
      "site position, or two parents with equal time")
SUBCHECKS = [
    SubCheck("C07.sort_order", run_sort, strategy=sort_case, quick=2400, thorough=72000, rule=NT,
             floors={"perm_edges": 0.15, "perm_mutations": 0.15, "perm_sites": 0.1, "perm_migrations": 0.04,
                     "dup_site": 0.2, "edge_start>0_with_metadata": 0.12, "equal_parent_times": 0.15,
                     "skip_sites": 0.08, "bad_start": 0.1, "known_mut_times": 0.15, "multi_mut_site": 0.25,
                     "mixed_known_unknown_sites": 0.004}),
    SubCheck("C07.repair_pipeline", run_pipeline, strategy=pipeline_case, quick=2000, thorough=60000, rule=NT,
             floors={"perm_edges": 0.15, "perm_mutations": 0.1, "perm_sites": 0.1, "perm_migrations": 0.05,
                     "dup_site_with_mutations": 0.12, "edge_start>0_with_metadata": 0.1, "erase_parents": 0.3,
                     "erase_times": 0.15, "known_mut_times": 0.15, "multi_mut_site": 0.25}),
    SubCheck("C07.deep_pedigree", run_pedigree, enumerate=enum_pedigree, quick=1, thorough=1, shards=6,
             rule="fully inbred pedigrees of 20-70 (thorough: up to 100) generations in two individual-table orders"),
    SubCheck("C07.large_stack", run_stack, enumerate=enum_stack, quick=1, thorough=1, shards=9,
             rule="255-300 (thorough: up to 2000) mutations stacked at one site on a leaf, on the root, or split over two nodes"),
    SubCheck("C07.mutation_parents", run_mutpar, strategy=mutpar_case, quick=1500, thorough=45000,
             rule="at least one mutation has a mutation above it at its site",
             floors={"parent_on_other_node": 0.1, "parent_on_same_node": 0.15, "parent_after_child": 0.03}),
    SubCheck("C07.canonicalise", run_canon, strategy=canon_case, quick=1500, thorough=45000,
             rule="the two row orders differ and there is no individual-parent cycle",
             floors={"A!=B": 0.4, "perm_individuals": 0.1, "perm_populations": 0.08,
                     "unreferenced_ind_or_pop": 0.25, "individual_parents": 0.12, "multi_mut_site": 0.2}),
    SubCheck("C07.sort_individuals", run_sortind, strategy=sortind_case, quick=800, thorough=24000,
             rule="some individual is listed before one of its parents and the pedigree is acyclic",
             floors={"unsorted_input": 0.08, "cycle": 0.004, "node_refs": 0.3}),
    SubCheck("C07.squash", run_squash, strategy=squash_case, quick=800, thorough=24000,
             rule="at least one pair of adjacent edges (same parent, child; right == left) and no edge metadata",
             floors={"adjacent_pieces": 0.3, "edge_metadata": 0.05, "permuted": 0.18, "gap_between_pieces": 0.05}),
]
