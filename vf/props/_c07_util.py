"""Helpers shared by c07.py and c11.py: byte snapshots of tables, row permutations of a spec that
keep it referentially intact, and small pure-python models of the documented sort keys."""
from ..gen import F

TABLES = ("individuals", "nodes", "edges", "migrations", "sites", "mutations", "populations",
          "provenances")


# ------------------------------------------------------------------ snapshots
def snap(t):
    """Every column of every table as bytes (+ dtype), plus the top-level attributes."""
    d = t.asdict()
    out = {}
    for name in TABLES:
        cols = {}
        for k, v in d[name].items():
            if isinstance(v, (str, bytes)):
                cols[k] = v
            else:
                cols[k] = (str(v.dtype), v.tobytes())
        out[name] = cols
    out["top"] = (float(t.sequence_length), t.time_units, bytes(t.metadata_bytes),
                  repr(t.metadata_schema))
    return out


def snap_table(table):
    cols = {}
    for k, v in table.asdict().items():
        cols[k] = v if isinstance(v, (str, bytes)) else (str(v.dtype), v.tobytes())
    return cols


def same(ctx, s0, s1, names, what):
    for name in names:
        a, b = s0[name], s1[name]
        if a != b:
            if isinstance(a, dict):
                bad = sorted(k for k in set(a) | set(b) if a.get(k) != b.get(k))
            else:
                bad = [f"{a!r} -> {b!r}"]
            ctx.fail(what, f"table '{name}' changed (columns {bad})")


# ------------------------------------------------------------------ permutations
def inv(p):
    q = [0] * len(p)
    for new, old in enumerate(p):
        q[old] = new
    return q


def ident(n):
    return list(range(n))


def permuted(spec, P):
    """Rows of table X reordered so that new row k is old row P[X][k]; every reference to a moved
    row is rewritten, nothing else changes.  Missing keys = identity."""
    pe = P.get("e") or ident(len(spec["edges"]))
    ps = P.get("s") or ident(len(spec["sites"]))
    pm = P.get("m") or ident(len(spec["mutations"]))
    pg = P.get("g") or ident(len(spec["migrations"]))
    pi = P.get("i") or ident(len(spec["individuals"]))
    pp = P.get("p") or ident(len(spec["populations"]))
    is_, im, ii, ip = inv(ps), inv(pm), inv(pi), inv(pp)
    out = dict(spec)
    out["edges"] = [list(spec["edges"][o]) for o in pe]
    out["sites"] = [list(spec["sites"][o]) for o in ps]
    out["mutations"] = []
    for o in pm:
        m = list(spec["mutations"][o])
        m[0] = is_[m[0]]
        m[3] = im[m[3]] if 0 <= m[3] < len(im) else m[3]
        out["mutations"].append(m)
    out["migrations"] = []
    for o in pg:
        r = list(spec["migrations"][o])
        r[3], r[4] = ip[r[3]], ip[r[4]]
        out["migrations"].append(r)
    out["individuals"] = []
    for o in pi:
        fl, loc, par, md = spec["individuals"][o]
        out["individuals"].append([fl, list(loc), [ii[q] if q >= 0 else -1 for q in par], md])
    out["populations"] = [list(spec["populations"][o]) for o in pp]
    out["nodes"] = []
    for fl, tm, pop, ind, md in spec["nodes"]:
        out["nodes"].append([fl, tm, ip[pop] if pop >= 0 else -1, ii[ind] if ind >= 0 else -1, md])
    return out


def draw_perm(draw, st, n, p_identity=4):
    """A permutation of range(n); identity with probability 1/p_identity."""
    if n < 2 or draw(st.integers(0, p_identity - 1)) == 0:
        return ident(n)
    return list(draw(st.permutations(ident(n))))


def add_migrations(draw, spec, max_extra=3, p=3):
    """More migration rows (referentially valid; sort()/loading only need that much)."""
    from hypothesis import strategies as st

    from .. import model

    npop = len(spec["populations"])
    if not npop or draw(st.integers(0, p - 1)) > 0:
        return
    bps = model.breakpoints(spec)
    times = sorted({nd[1] for nd in spec["nodes"]})
    for _ in range(draw(st.integers(1, max_extra))):
        a = draw(st.integers(0, len(bps) - 2))
        b = draw(st.integers(a + 1, len(bps) - 1))
        spec["migrations"].append([bps[a], bps[b], draw(st.integers(0, len(spec["nodes"]) - 1)),
                                   draw(st.integers(0, npop - 1)), draw(st.integers(0, npop - 1)),
                                   draw(st.sampled_from(times)), draw(st.sampled_from(["", "mg", "\x00\x01z"]))])
    spec["migrations"].sort(key=lambda r: F(r[5]))



# ------------------------------------------------------------------ documented sort keys
def edge_key(spec, e):
    return (F(spec["nodes"][e[2]][1]), e[2], e[3], F(e[0]))


def mig_key(r):
    return (F(r[5]), r[3], r[4], F(r[0]), r[2])


def uniq_migrations(spec):
    """Drop migration rows that repeat the full documented sort key (their relative order after
    sort() is not defined)."""
    seen, out = set(), []
    for r in spec["migrations"]:
        k = mig_key(r)
        if k in seen:
            continue
        seen.add(k)
        out.append(r)
    spec["migrations"] = out
    return spec


def model_sort(spec, edge_start=0, skip_sites=False):
    """Expected result of TableCollection.sort on the rows of `spec` (as documented)."""
    out = dict(spec)
    e = [list(r) for r in spec["edges"]]
    out["edges"] = e[:edge_start] + sorted(e[edge_start:], key=lambda r: edge_key(spec, r))
    out["migrations"] = sorted((list(r) for r in spec["migrations"]), key=mig_key)
    if skip_sites:
        return out
    ns, nm = len(spec["sites"]), len(spec["mutations"])
    order = sorted(range(ns), key=lambda j: (F(spec["sites"][j][0]), j))
    smap = inv(order)
    out["sites"] = [list(spec["sites"][j]) for j in order]

    def mkey(j):
        m = spec["mutations"][j]
        return (smap[m[0]], 0.0 if m[4] is None else -F(m[4]), j)

    morder = sorted(range(nm), key=mkey)
    mmap = inv(morder)
    out["mutations"] = []
    for j in morder:
        m = list(spec["mutations"][j])
        m[0] = smap[m[0]]
        m[3] = mmap[m[3]] if m[3] >= 0 else -1
        out["mutations"].append(m)
    return out


def norm_rows(spec):
    """Comparable row lists (floats as python floats) of the permutable tables."""
    return dict(
        edges=[[F(e[0]), F(e[1]), e[2], e[3], e[4]] for e in spec["edges"]],
        sites=[[F(s[0]), s[1], s[2]] for s in spec["sites"]],
        mutations=[[m[0], m[1], m[2], m[3], None if m[4] is None else F(m[4]), m[5]]
                   for m in spec["mutations"]],
        migrations=[[F(r[0]), F(r[1]), r[2], r[3], r[4], F(r[5]), r[6]] for r in spec["migrations"]],
    )


def eq_rows(ctx, got_spec, exp_spec, names, what):
    g, e = norm_rows(got_spec), norm_rows(exp_spec)
    for name in names:
        if g[name] != e[name]:
            k = next((i for i, (a, b) in enumerate(zip(g[name], e[name])) if a != b),
                     min(len(g[name]), len(e[name])))
            ctx.fail(what, f"{name}: {len(g[name])} rows, expected {len(e[name])}; first difference at "
                     f"row {k}: got {g[name][k:k + 2]} expected {e[name][k:k + 2]}")


# ------------------------------------------------------------------ trees / genotypes
def probe_positions(spec):
    from .. import model

    bps = model.breakpoints(spec)
    xs = []
    for a, b in zip(bps[:-1], bps[1:]):
        xs.append(a)
        xs.append(a + (b - a) / 2)
    return bps, xs


def same_trees(ctx, model, got_spec, exp_spec, what, breakpoints=True):
    bps, xs = probe_positions(exp_spec)
    if breakpoints:
        ctx.eq(model.breakpoints(got_spec), bps, what + ".breakpoints")
    for x in xs:
        a, b = model.parent_at(got_spec, x), model.parent_at(exp_spec, x)
        ctx.check(a == b, what, lambda: f"parent map at x={x}: got {a} expected {b}")


def ts_matches(ctx, model, ts, exp_spec, what):
    """The loaded tree sequence encodes the trees and sample genotypes of exp_spec."""
    n = len(exp_spec["nodes"])
    bps = model.breakpoints(exp_spec)
    ctx.eq(list(ts.breakpoints()), bps, what + ".ts breakpoints")
    for tree in ts.trees():
        got = list(map(int, tree.parent_array[:n]))
        exp = model.parent_at(exp_spec, tree.interval.left)
        ctx.check(got == exp, what, lambda: f"tree at {tree.interval.left}: parent_array {got} expected {exp}")
    ts_genotypes(ctx, model, ts, exp_spec, what)


def ts_genotypes(ctx, model, ts, exp_spec, what):
    """Sites and sample genotypes decoded from `ts` are those of exp_spec (by the model)."""
    ctx.check(ts.num_sites == len(exp_spec["sites"]), what,
              f"num_sites {ts.num_sites} expected {len(exp_spec['sites'])}")
    smp = list(map(int, ts.samples()))
    ctx.eq(smp, model.samples(exp_spec), what + ".samples")
    for var in ts.variants(isolated_as_missing=False):
        sid = var.site.id
        ctx.check(var.site.position == F(exp_spec["sites"][sid][0]), what, f"site {sid} position")
        ctx.check(var.site.ancestral_state == exp_spec["sites"][sid][1], what,
                  f"site {sid} ancestral state {var.site.ancestral_state!r}")
        par = model.parent_at(exp_spec, F(exp_spec["sites"][sid][0]))
        for k, u in enumerate(smp):
            got = var.alleles[var.genotypes[k]]
            exp = model.allele_at(exp_spec, sid, u, par)
            ctx.check(got == exp, what, lambda: f"genotype of sample {u} at site {sid}: {got!r} expected {exp!r}")


def model_genotypes(model, spec):
    """allele_at for every (site, node) computed from raw rows."""
    out = []
    for sid in range(len(spec["sites"])):
        par = model.parent_at(spec, F(spec["sites"][sid][0]))
        out.append([model.allele_at(spec, sid, u, par) for u in range(len(spec["nodes"]))])
    return out
