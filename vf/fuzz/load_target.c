/* libFuzzer target for property C10: bytes -> tsk_table_collection_loadf.
 *
 * The first input byte selects the read path (bit0 skip tables, bit1 skip reference sequence);
 * the rest is the file.  Oracle inside the target (a violation calls abort(), which libFuzzer
 * reports and saves as a crash input):
 *   - loading either fails cleanly or yields a collection that survives an integrity check,
 *     tsk_treeseq_init (may fail cleanly; if it succeeds a full tree + variant sweep runs),
 *     and dumps to memory, reloads and compares equal;
 *   - everything runs under ASan + UBSan, so silent over-reads are failures too.
 */
#include <stdint.h>
#include <stdio.h>
#include <stdlib.h>
#include <string.h>
#include <math.h>

#include <tskit.h>

static void
violation(const char *what)
{
    fprintf(stderr, "C10-ORACLE-VIOLATION: %s\n", what);
    abort();
}

static void
sweep(tsk_table_collection_t *tables)
{
    tsk_treeseq_t ts;
    tsk_tree_t tree;
    tsk_variant_t var;
    int ret;
    tsk_size_t j;
    tsk_id_t u;
    double total = 0;

    ret = tsk_treeseq_init(&ts, tables, TSK_TS_INIT_BUILD_INDEXES);
    if (ret != 0) {
        tsk_treeseq_free(&ts);
        return;
    }
    ret = tsk_tree_init(&tree, &ts, TSK_SAMPLE_LISTS);
    if (ret != 0) {
        violation("tsk_tree_init failed on an accepted tree sequence");
    }
    for (ret = tsk_tree_first(&tree); ret == TSK_TREE_OK; ret = tsk_tree_next(&tree)) {
        if (!(tree.interval.left < tree.interval.right)) {
            violation("tree interval not increasing");
        }
        total += tree.interval.right - tree.interval.left;
        for (u = 0; u < (tsk_id_t) tsk_treeseq_get_num_nodes(&ts); u++) {
            if (tree.parent[u] != TSK_NULL
                && !(tables->nodes.time[tree.parent[u]] > tables->nodes.time[u])) {
                violation("parent not older than child in an accepted tree sequence");
            }
        }
    }
    if (ret != 0) {
        violation("tree iteration failed on an accepted tree sequence");
    }
    for (ret = tsk_tree_last(&tree); ret == TSK_TREE_OK; ret = tsk_tree_prev(&tree)) {
    }
    if (ret != 0) {
        violation("reverse tree iteration failed on an accepted tree sequence");
    }
    tsk_tree_free(&tree);
    if (tsk_treeseq_get_num_trees(&ts) > 0 && isfinite(tables->sequence_length)
        && fabs(total - tables->sequence_length) > 1e-6 * fabs(tables->sequence_length)) {
        violation("tree intervals do not cover [0, L)");
    }
    ret = tsk_variant_init(&var, &ts, NULL, 0, NULL, TSK_ISOLATED_NOT_MISSING);
    if (ret == 0) {
        for (j = 0; j < tsk_treeseq_get_num_sites(&ts); j++) {
            ret = tsk_variant_decode(&var, (tsk_id_t) j, 0);
            if (ret != 0 && ret != TSK_ERR_TOO_MANY_ALLELES) {
                violation("variant decode failed on an accepted tree sequence");
            }
        }
    }
    tsk_variant_free(&var);
    tsk_treeseq_free(&ts);
}

int
LLVMFuzzerTestOneInput(const uint8_t *data, size_t size)
{
    tsk_table_collection_t tables, back;
    tsk_flags_t flags = 0;
    FILE *f, *out, *in;
    char *buf = NULL;
    size_t len = 0;
    int ret;

    if (size < 2) {
        return 0;
    }
    if (data[0] & 1) {
        flags |= TSK_LOAD_SKIP_TABLES;
    }
    if (data[0] & 2) {
        flags |= TSK_LOAD_SKIP_REFERENCE_SEQUENCE;
    }
    data++;
    size--;
    f = fmemopen((void *) data, size, "rb");
    if (f == NULL) {
        return 0;
    }
    ret = tsk_table_collection_loadf(&tables, f, flags);
    if (ret == 0) {
        (void) tsk_table_collection_check_integrity(&tables, 0);
        sweep(&tables);
        out = open_memstream(&buf, &len);
        if (out != NULL) {
            ret = tsk_table_collection_dumpf(&tables, out, 0);
            fclose(out);
            if (ret == 0) {
                in = fmemopen(buf, len, "rb");
                if (in != NULL) {
                    ret = tsk_table_collection_loadf(&back, in, 0);
                    if (ret != 0) {
                        violation("a loaded collection was dumped but does not load again");
                    }
                    if (tables.sequence_length == tables.sequence_length
                        && !tsk_table_collection_equals(&tables, &back, 0)) {
                        violation("a loaded collection does not round-trip through dump/load");
                    }
                    tsk_table_collection_free(&back);
                    fclose(in);
                }
            }
            free(buf);
        }
    }
    tsk_table_collection_free(&tables);
    fclose(f);
    return 0;
}
