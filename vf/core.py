"""Shared pieces: the violation exception, the per-case context, registry of sub-checks."""
import hashlib
import json
import math


class PropertyViolation(Exception):
    """The only exception that means 'the property is broken on this case'."""

    def __init__(self, what, detail=""):
        super().__init__(f"{what}: {detail}" if detail else what)
        self.what = what
        self.detail = detail


def digest(case):
    s = json.dumps(case, sort_keys=True, separators=(",", ":"), default=_jd)
    return hashlib.sha1(s.encode("utf-8", "surrogatepass")).hexdigest()[:16]


def _jd(o):
    # numpy scalars sneaking into a case
    try:
        import numpy as np

        if isinstance(o, np.integer):
            return int(o)
        if isinstance(o, np.floating):
            return float(o)
        if isinstance(o, np.ndarray):
            return o.tolist()
    except Exception:
        pass
    if isinstance(o, (bytes, bytearray)):
        return bytes(o).decode("latin-1")
    if isinstance(o, (set, frozenset, tuple)):
        return list(o)
    raise TypeError(f"not JSON-able: {type(o)}")


def dumps(obj, **kw):
    return json.dumps(sanitise(obj), default=_jd, **kw)


def sanitise(o):
    """Make JSON strictly valid: non-finite floats become strings."""
    if isinstance(o, float):
        if math.isnan(o):
            return "nan"
        if math.isinf(o):
            return "inf" if o > 0 else "-inf"
        return o
    if isinstance(o, dict):
        return {str(k): sanitise(v) for k, v in o.items()}
    if isinstance(o, (list, tuple)):
        return [sanitise(v) for v in o]
    return o


class Ctx:
    """Per-case context handed to a sub-check's run(case, ctx)."""

    __slots__ = ("labels", "nontrivial", "subcheck", "tier", "notes")

    def __init__(self, subcheck, tier):
        self.labels = set()
        self.nontrivial = False
        self.subcheck = subcheck
        self.tier = tier
        self.notes = {}

    def label(self, name, cond=True):
        if cond:
            self.labels.add(name)
        return cond

    def nt(self, cond=True):
        if cond:
            self.nontrivial = True

    def fail(self, what, detail=""):
        raise PropertyViolation(what, detail)

    def check(self, cond, what, detail=""):
        if not cond:
            if callable(detail):
                detail = detail()
            raise PropertyViolation(what, str(detail)[:2000])

    def eq(self, a, b, what):
        """Exact equality of plain values / sequences / numpy arrays (shape-safe)."""
        import numpy as np

        if isinstance(a, np.ndarray) or isinstance(b, np.ndarray):
            a = np.asarray(a)
            b = np.asarray(b)
            if a.shape != b.shape or not np.array_equal(a, b, equal_nan=_is_float(a, b)):
                raise PropertyViolation(what, f"got {_short(a)} expected {_short(b)}")
            return
        if a != b:
            raise PropertyViolation(what, f"got {_short(a)} expected {_short(b)}")

    def close(self, a, b, what, rtol=1e-9, atol=1e-12):
        """Tolerant float comparison; NaN==NaN, infinities by sign, shape-safe."""
        import numpy as np

        a = np.asarray(a, dtype=float)
        b = np.asarray(b, dtype=float)
        if a.shape != b.shape:
            raise PropertyViolation(what, f"shape {a.shape} expected {b.shape}")
        nan_a, nan_b = np.isnan(a), np.isnan(b)
        if not np.array_equal(nan_a, nan_b):
            raise PropertyViolation(what, f"NaN pattern: got {_short(a)} expected {_short(b)}")
        inf = np.isinf(a) | np.isinf(b)
        if inf.any() and not np.array_equal(a[inf], b[inf]):
            raise PropertyViolation(what, f"inf: got {_short(a)} expected {_short(b)}")
        m = ~(nan_a | inf)
        if m.any():
            aa, bb = a[m], b[m]
            tol = atol + rtol * np.maximum(1.0, np.maximum(np.abs(aa), np.abs(bb)))
            if (np.abs(aa - bb) > tol).any():
                raise PropertyViolation(what, f"got {_short(a)} expected {_short(b)}")


def _is_float(a, b):
    return a.dtype.kind == "f" and b.dtype.kind == "f"


def _short(x, n=400):
    s = repr(x)
    return s if len(s) <= n else s[: n - 3] + "..."


class SubCheck:
    """One named oracle.  `strategy()` returns a Hypothesis strategy producing a JSON-able case
    (kind='hypothesis'), or `enumerate(tier, seed)` yields cases (kind='enum').
    `run(case, ctx)` raises PropertyViolation when the property fails on the case."""

    def __init__(
        self,
        name,
        run,
        strategy=None,
        enumerate=None,
        quick=1000,
        thorough=20000,
        flavour="plain",
        rule="",
        floors=None,
        classify=None,
        shards=None,
        isolate=False,
        thorough_flavour=None,
        max_shrink_runs=(400, 4000),
        hang_s=None,
    ):
        self.name = name
        self.run = run
        self.strategy = strategy
        self.enumerate = enumerate
        self.kind = "enum" if enumerate is not None else "hypothesis"
        self.quick = quick
        self.thorough = thorough
        self.flavour = flavour
        self.thorough_flavour = thorough_flavour or flavour
        self.rule = rule
        self.floors = floors or {}
        self.classify = classify
        self.shards = shards
        self.isolate = isolate
        self.max_shrink_runs = max_shrink_runs
        self.hang_s = hang_s

    def budget(self, tier):
        return self.quick if tier == "quick" else self.thorough


REGISTRY = {}


def register(prop, subchecks, meta=None):
    REGISTRY[prop] = dict(subchecks=subchecks, meta=meta or {})
