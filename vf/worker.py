"""Worker subprocess: runs one shard of one sub-check and writes a JSON result file.

usage: python -m vf.worker <job.json>
"""
import collections
import importlib
import json
import os
import sys
import time
import traceback

from . import build
from .core import Ctx, PropertyViolation, digest, dumps


class _Budget(Exception):
    pass


def _is_tskit_exception(e, tb):
    mod = type(e).__module__ or ""
    if mod.startswith("tskit") or mod.startswith("_tskit"):
        return True
    if isinstance(e, (SystemError, MemoryError)):
        return True
    # innermost frame inside the repository's python package
    inner = traceback.extract_tb(tb)[-1].filename if tb else ""
    repo = os.path.realpath(os.path.join(os.environ.get("VF_REPO", "/repo"), "python"))
    return os.path.realpath(inner).startswith(repo)


def load_subcheck(prop, name):
    mod = importlib.import_module(f"vf.props.{prop.lower()}")
    for sc in mod.SUBCHECKS:
        if sc.name == name:
            return sc
    raise KeyError(name)


def main():
    with open(sys.argv[1]) as f:
        job = json.load(f)
    build.assert_repo_tskit()
    sc = load_subcheck(job["prop"], job["subcheck"])
    tier = job["tier"]
    open_known = set(job.get("open_known", []))
    deadline = job.get("deadline")
    jpath = job["journal"]
    jf = open(jpath, "w")

    S = dict(
        evals=0,
        nontrivial=set(),
        labels=collections.Counter(),
        samples=[],
        fail=None,
        after_fail=0,
        harness=None,
        excluded=collections.Counter(),
        stop=False,
        budget=False,
        notes=collections.Counter(),
    )
    cap = sc.max_shrink_runs[0 if tier == "quick" else 1]

    def body(case):
        if S["stop"]:
            return
        if deadline and time.time() > deadline and S["fail"] is None:
            S["budget"] = True
            raise _Budget()
        if S["fail"] is not None:
            S["after_fail"] += 1
            if S["after_fail"] > cap:
                S["stop"] = True
                return
        jf.seek(0)
        jf.truncate()
        jf.write(dumps(case))
        jf.flush()
        ctx = Ctx(sc.name, tier)
        try:
            sc.run(case, ctx)
        except PropertyViolation as e:
            key = sc.classify(case, e) if sc.classify else None
            if key is not None and key in open_known:
                S["excluded"][key] += 1
                return
            S["fail"] = dict(case=case, message=str(e)[:4000], kind="violation", key=key)
            raise
        except _Budget:
            raise
        except Exception as e:
            tb = sys.exc_info()[2]
            if _is_tskit_exception(e, tb):
                msg = "unexpected exception from tskit: " + "".join(
                    traceback.format_exception_only(type(e), e)
                ).strip()
                msg += " @ " + " <- ".join(
                    f"{os.path.basename(fr.filename)}:{fr.lineno}"
                    for fr in reversed(traceback.extract_tb(tb)[-4:])
                )
                pv = PropertyViolation("unexpected_exception", msg)
                key = sc.classify(case, pv) if sc.classify else None
                if key is not None and key in open_known:
                    S["excluded"][key] += 1
                    return
                S["fail"] = dict(case=case, message=str(pv)[:4000], kind="violation", key=key)
                raise pv from e
            if S["harness"] is None:
                S["harness"] = dict(case=case, traceback=traceback.format_exc()[-6000:])
            raise
        finally:
            S["evals"] += 1
            for lab in ctx.labels:
                S["labels"][lab] += 1
            for k, v in ctx.notes.items():
                S["notes"][k] += v
        if ctx.nontrivial:
            d = digest(case)
            if d not in S["nontrivial"]:
                S["nontrivial"].add(d)
                if len(S["samples"]) < 3:
                    S["samples"].append(dict(case=case, labels=sorted(ctx.labels)))

    t0 = time.time()
    hyp_error = None
    if "replay_case" in job:
        try:
            body(job["replay_case"])
        except PropertyViolation:
            pass
        except Exception:
            pass
    elif sc.kind == "enum":
        try:
            for i, case in enumerate(sc.enumerate(tier, job["seed"])):
                if i % job["nshards"] != job["shard"]:
                    continue
                body(case)
        except PropertyViolation:
            pass
        except _Budget:
            pass
        except Exception:
            if S["harness"] is None:
                S["harness"] = dict(case=None, traceback=traceback.format_exc()[-6000:])
    else:
        import hypothesis
        from hypothesis import HealthCheck, Phase, given, settings

        sett = settings(
            max_examples=job["n"],
            database=None,
            deadline=None,
            derandomize=False,
            report_multiple_bugs=False,
            suppress_health_check=list(HealthCheck),
            phases=[Phase.generate] if os.environ.get("VF_NO_SHRINK") else [Phase.generate, Phase.shrink],
            print_blob=False,
        )

        @hypothesis.seed(job["hseed"])
        @sett
        @given(sc.strategy())
        def test(case):
            body(case)

        try:
            test()
        except PropertyViolation:
            pass
        except _Budget:
            pass
        except BaseException as e:  # Flaky etc. after the shrink cap; real errors recorded in S
            if S["fail"] is None and S["harness"] is None and not S["budget"]:
                S["harness"] = dict(case=None, traceback=traceback.format_exc()[-6000:])
            hyp_error = repr(e)[:300]
    res = dict(
        subcheck=sc.name,
        shard=job["shard"],
        evaluations=S["evals"],
        nontrivial=sorted(S["nontrivial"]),
        labels=dict(S["labels"]),
        notes=dict(S["notes"]),
        samples=S["samples"],
        failure=S["fail"],
        harness_error=S["harness"] if S["fail"] is None else None,
        excluded=dict(S["excluded"]),
        budget_reached=S["budget"],
        wall_s=time.time() - t0,
        hyp_error=hyp_error,
    )
    tmp = job["out"] + ".tmp"
    with open(tmp, "w") as f:
        f.write(dumps(res))
    os.rename(tmp, job["out"])
    jf.close()
    sys.stdout.flush()
    sys.stderr.flush()
    os._exit(0)


if __name__ == "__main__":
    main()
